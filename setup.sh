#!/bin/bash
# Build the framework from files on disk only (offline): translators, full .vo build, warm Go caches.
set -e
cd /verif
export GOFLAGS=-mod=mod GOPROXY=off GOSUMDB=off GOTOOLCHAIN=local
mkdir -p build evidence
python3 tools/gen_all.py
python3 -c "import sys; sys.path.insert(0,'/verif/harness/py'); import vlib; vlib.coq_makefile()"
# full .vo build of the development; -k so that one broken file cannot keep the others from being built
(cd coq && timeout 3000 make -k -j16) || echo "WARNING: some Coq files did not build (each check rebuilds and reports its own targets)"
# warm the Go build cache with the overlay-injected harness packages
python3 - <<'PY'
import sys
sys.path.insert(0, '/verif/harness/py')
import vlib, os
for pkg in vlib.PKGS:
    if os.path.isdir(os.path.join(vlib.HARNESS_GO, pkg)):
        if pkg == "protocol":
            continue      # built by the C15 check together with the registry file it generates
        # (package newrelic: the C12 harness needs the ticker hook the C12 check weaves in; warm the shared processor harness)
        b, out = vlib.go_test_binary(pkg, only=["proc"]) if pkg == "newrelic" else vlib.go_test_binary(pkg)
        print(pkg, 'ok' if b else 'FAILED\n' + out[-2000:])
# the race-detector build of the C17 harness is slow when cold
b, out = vlib.go_test_binary("newrelic", race=True, only=["c17"])
print('newrelic (race, c17)', 'ok' if b else 'FAILED\n' + out[-2000:])
b, out = vlib.go_build_daemon()
print('daemon binary', 'ok' if b else 'FAILED\n' + out[-2000:])
PY
echo setup done
