// Sub-commands used by tools/gens/clientwiring.py (C18): syntactic facts about one function.
//
//	gofacts complit <file> <func> <type>    -> {"field": "expr", ...} of the first composite literal in <func>
//	                                           whose type prints as <type> (e.g. collector.ClientConfig)
//	gofacts callargs <file> <func> <callee> -> ["arg0", "arg1", ...] of the first call of <callee> in <func>
//	gofacts retconds <file> <func>          -> conditions of the if-statements of <func> whose body returns a
//	                                           first result other than the literal nil
package main

import (
	"bytes"
	"encoding/json"
	"go/ast"
	"go/parser"
	"go/printer"
	"go/token"
	"os"
)

func exprString(fset *token.FileSet, e ast.Node) string {
	var b bytes.Buffer
	printer.Fprint(&b, fset, e)
	return b.String()
}

func findFunc(fset *token.FileSet, file, name string) *ast.FuncDecl {
	f, err := parser.ParseFile(fset, file, nil, 0)
	if err != nil {
		die("parse: %v", err)
	}
	for _, d := range f.Decls {
		if fd, ok := d.(*ast.FuncDecl); ok && fd.Recv == nil && fd.Name.Name == name && fd.Body != nil {
			return fd
		}
	}
	die("function %s not found in %s", name, file)
	return nil
}

func wiringMode(args []string) bool {
	if len(args) < 2 {
		return false
	}
	fset := token.NewFileSet()
	switch args[1] {
	case "complit":
		if len(args) < 5 {
			die("usage: gofacts complit <file> <func> <type>")
		}
		fd := findFunc(fset, args[2], args[3])
		var res map[string]string
		ast.Inspect(fd.Body, func(n ast.Node) bool {
			cl, ok := n.(*ast.CompositeLit)
			if !ok || res != nil || cl.Type == nil || exprString(fset, cl.Type) != args[4] {
				return true
			}
			res = map[string]string{}
			for _, el := range cl.Elts {
				kv, ok := el.(*ast.KeyValueExpr)
				if !ok {
					die("composite literal of %s is not keyed", args[4])
				}
				res[exprString(fset, kv.Key)] = exprString(fset, kv.Value)
			}
			return false
		})
		if res == nil {
			die("no composite literal of type %s in %s", args[4], args[3])
		}
		json.NewEncoder(os.Stdout).Encode(res)
		return true
	case "callargs":
		if len(args) < 5 {
			die("usage: gofacts callargs <file> <func> <callee>")
		}
		fd := findFunc(fset, args[2], args[3])
		var res []string
		found := false
		ast.Inspect(fd.Body, func(n ast.Node) bool {
			ce, ok := n.(*ast.CallExpr)
			if !ok || found || exprString(fset, ce.Fun) != args[4] {
				return true
			}
			found = true
			res = []string{}
			for _, a := range ce.Args {
				res = append(res, exprString(fset, a))
			}
			return false
		})
		if !found {
			die("no call of %s in %s", args[4], args[3])
		}
		json.NewEncoder(os.Stdout).Encode(res)
		return true
	case "retconds":
		if len(args) < 4 {
			die("usage: gofacts retconds <file> <func>")
		}
		fd := findFunc(fset, args[2], args[3])
		res := []string{}
		ast.Inspect(fd.Body, func(n ast.Node) bool {
			is, ok := n.(*ast.IfStmt)
			if !ok {
				return true
			}
			for _, st := range is.Body.List {
				rs, ok := st.(*ast.ReturnStmt)
				if !ok || len(rs.Results) == 0 {
					continue
				}
				if id, ok := rs.Results[0].(*ast.Ident); ok && id.Name == "nil" {
					continue
				}
				res = append(res, exprString(fset, is.Cond))
			}
			return true
		})
		json.NewEncoder(os.Stdout).Encode(res)
		return true
	}
	return false
}
