// Sub-command used by tools/gens/logsites.py (C14):
//
//	gofacts logsites <daemon module dir>
//
// lists every call of log.Debugf / Infof / Warnf / Errorf / Healthf / Audit (package
// .../internal/newrelic/log) in the non-test Go files of the module, with for each argument after the
// format string its source text, static type (go/types) and syntactic class, plus the "features" the
// Coq predicate of C14 looks at:
//
//	conv_license   a conversion string(x) / []byte(x) with x of type collector.LicenseKey
//	url_raw        a call of (*RpmCmd).url whose argument is not the literal true
//	proxy_field    a selector .Proxy on a struct (a configuration's proxy setting)
//	os_args        a use of os.Args outside a call of redactArgs
//	proxy_struct   the argument's type is (a pointer to) a struct with a field named Proxy
//	raw_license    the argument's type is (a pointer to) a struct without String/Error/Format method that has
//	               an unexported field of type collector.LicenseKey (fmt prints such a field raw), depth <= 2
//	redacted_lit   (with proxy_struct) the variable is defined by a composite literal whose Proxy field is
//	               the literal "**REDACTED**" and no assignment to its .Proxy lies between that and the call
//
// For an argument that is a local variable the features of its defining expression (:= / var / range) are
// included (one level), prefixed "def:".  Output: JSON list sorted by file and line.
package main

import (
	"encoding/json"
	"go/ast"
	"go/importer"
	"go/parser"
	"go/token"
	"go/types"
	"io"
	"os"
	"os/exec"
	"path/filepath"
	"sort"
	"strings"
)

type logArg struct {
	Expr     string   `json:"expr"`
	Type     string   `json:"type"`
	Class    string   `json:"class"`
	Def      string   `json:"def"`
	Features []string `json:"features"`
}

type logSite struct {
	File   string   `json:"file"`
	Line   int      `json:"line"`
	Func   string   `json:"func"`
	Level  string   `json:"level"`
	Format string   `json:"format"`
	Args   []logArg `json:"args"`
}

type lsPkg struct {
	path, export, dir string
	files             []string
	std               bool
}

func logsitesMode(args []string) bool {
	if len(args) < 2 || args[1] != "logsites" {
		return false
	}
	if len(args) < 3 {
		die("usage: gofacts logsites <daemon module dir>")
	}
	dir := args[2]
	cmd := exec.Command("go", "list", "-export", "-deps", "-f",
		"{{.ImportPath}}\t{{.Export}}\t{{.Dir}}\t{{range .GoFiles}}{{.}},{{end}}\t{{.Standard}}\t{{if .Module}}{{.Module.Main}}{{end}}",
		"./...")
	cmd.Dir = dir
	cmd.Stderr = os.Stderr
	out, err := cmd.Output()
	if err != nil {
		die("go list failed: %v", err)
	}
	exports := map[string]string{}
	var targets []lsPkg
	for _, line := range strings.Split(strings.TrimSpace(string(out)), "\n") {
		f := strings.Split(line, "\t")
		if len(f) < 6 {
			continue
		}
		exports[f[0]] = f[1]
		if f[5] == "true" {
			p := lsPkg{path: f[0], export: f[1], dir: f[2]}
			for _, g := range strings.Split(f[3], ",") {
				if g != "" {
					p.files = append(p.files, g)
				}
			}
			targets = append(targets, p)
		}
	}
	fset := token.NewFileSet()
	lookup := func(path string) (io.ReadCloser, error) {
		e, ok := exports[path]
		if !ok || e == "" {
			return nil, os.ErrNotExist
		}
		return os.Open(e)
	}
	imp := importer.ForCompiler(fset, "gc", lookup)
	var sites []logSite
	for _, p := range targets {
		var files []*ast.File
		for _, g := range p.files {
			if strings.HasSuffix(g, "_test.go") {
				continue
			}
			af, err := parser.ParseFile(fset, filepath.Join(p.dir, g), nil, 0)
			if err != nil {
				die("parse %s: %v", g, err)
			}
			files = append(files, af)
		}
		info := &types.Info{Types: map[ast.Expr]types.TypeAndValue{}, Uses: map[*ast.Ident]types.Object{},
			Defs: map[*ast.Ident]types.Object{}, Selections: map[*ast.SelectorExpr]*types.Selection{}}
		var terrs []string
		conf := types.Config{Importer: imp, Error: func(e error) { terrs = append(terrs, e.Error()) }}
		conf.Check(p.path, fset, files, info)
		if len(terrs) > 0 {
			die("type errors in %s: %s", p.path, strings.Join(terrs, "; "))
		}
		rel := func(pos token.Pos) (string, int) {
			ps := fset.Position(pos)
			r, err := filepath.Rel(dir, ps.Filename)
			if err != nil {
				r = ps.Filename
			}
			return r, ps.Line
		}
		for _, af := range files {
			for _, d := range af.Decls {
				fd, ok := d.(*ast.FuncDecl)
				if !ok || fd.Body == nil {
					continue
				}
				fname := fd.Name.Name
				if fd.Recv != nil && len(fd.Recv.List) > 0 {
					fname = exprString(fset, fd.Recv.List[0].Type) + "." + fname
				}
				lsFunc(fset, info, fd, fname, rel, &sites)
			}
		}
	}
	sort.Slice(sites, func(i, j int) bool {
		if sites[i].File != sites[j].File {
			return sites[i].File < sites[j].File
		}
		return sites[i].Line < sites[j].Line
	})
	js, _ := json.MarshalIndent(sites, "", " ")
	os.Stdout.Write(js)
	return true
}

func isLogPkgCall(info *types.Info, call *ast.CallExpr) string {
	sel, ok := call.Fun.(*ast.SelectorExpr)
	if !ok {
		return ""
	}
	id, ok := sel.X.(*ast.Ident)
	if !ok {
		return ""
	}
	pn, ok := info.Uses[id].(*types.PkgName)
	if !ok || !strings.HasSuffix(pn.Imported().Path(), "/internal/newrelic/log") {
		return ""
	}
	switch sel.Sel.Name {
	case "Debugf", "Infof", "Warnf", "Errorf", "Healthf", "Audit":
		return sel.Sel.Name
	}
	return ""
}

func lsFunc(fset *token.FileSet, info *types.Info, fd *ast.FuncDecl, fname string,
	rel func(token.Pos) (string, int), sites *[]logSite) {
	ast.Inspect(fd.Body, func(n ast.Node) bool {
		call, ok := n.(*ast.CallExpr)
		if !ok {
			return true
		}
		level := isLogPkgCall(info, call)
		if level == "" {
			return true
		}
		file, line := rel(call.Pos())
		s := logSite{File: file, Line: line, Func: fname, Level: level, Args: []logArg{}}
		if len(call.Args) > 0 {
			if tv, ok := info.Types[call.Args[0]]; ok && tv.Value != nil {
				s.Format = strings.Trim(tv.Value.ExactString(), "\"")
			} else {
				s.Format = "<dynamic> " + exprString(fset, call.Args[0])
				// a non-constant format string is itself data that reaches the log
				s.Args = append(s.Args, lsArg(fset, info, fd, call, call.Args[0]))
			}
			for _, a := range call.Args[1:] {
				s.Args = append(s.Args, lsArg(fset, info, fd, call, a))
			}
		}
		*sites = append(*sites, s)
		return true
	})
}

func typeString(t types.Type) string {
	if t == nil {
		return "?"
	}
	return types.TypeString(t, func(p *types.Package) string {
		parts := strings.Split(p.Path(), "/")
		return parts[len(parts)-1]
	})
}

func structWithProxy(t types.Type) bool {
	if t == nil {
		return false
	}
	if p, ok := t.Underlying().(*types.Pointer); ok {
		t = p.Elem()
	}
	st, ok := t.Underlying().(*types.Struct)
	if !ok {
		return false
	}
	for i := 0; i < st.NumFields(); i++ {
		if st.Field(i).Name() == "Proxy" {
			return true
		}
	}
	return false
}

func hasFmtMethod(t types.Type) bool {
	for _, tt := range []types.Type{t, types.NewPointer(t)} {
		ms := types.NewMethodSet(tt)
		for i := 0; i < ms.Len(); i++ {
			switch ms.At(i).Obj().Name() {
			case "String", "Error", "Format", "GoString":
				return true
			}
		}
	}
	return false
}

func rawLicenseField(t types.Type, depth int) bool {
	if t == nil || depth > 2 {
		return false
	}
	if p, ok := t.Underlying().(*types.Pointer); ok {
		t = p.Elem()
	}
	if hasFmtMethod(t) {
		return false
	}
	st, ok := t.Underlying().(*types.Struct)
	if !ok {
		return false
	}
	for i := 0; i < st.NumFields(); i++ {
		f := st.Field(i)
		if isLicenseKey(f.Type()) && !f.Exported() {
			return true
		}
		if rawLicenseField(f.Type(), depth+1) {
			return true
		}
	}
	return false
}

func isLicenseKey(t types.Type) bool {
	n, ok := t.(*types.Named)
	return ok && n.Obj().Name() == "LicenseKey" && n.Obj().Pkg() != nil &&
		strings.HasSuffix(n.Obj().Pkg().Path(), "/collector")
}

// features of an expression (walks sub-expressions; does not descend into redactArgs(...) calls)
func lsFeatures(fset *token.FileSet, info *types.Info, e ast.Expr) []string {
	set := map[string]bool{}
	var walk func(n ast.Node) bool
	walk = func(n ast.Node) bool {
		switch x := n.(type) {
		case *ast.CallExpr:
			if id, ok := x.Fun.(*ast.Ident); ok && id.Name == "redactArgs" {
				return false
			}
			// conversion T(x)
			if tv, ok := info.Types[x.Fun]; ok && tv.IsType() && len(x.Args) == 1 {
				if at, ok := info.Types[x.Args[0]]; ok && isLicenseKey(at.Type) {
					if b, ok := tv.Type.Underlying().(*types.Basic); ok && b.Kind() == types.String {
						set["conv_license"] = true
					}
					if _, ok := tv.Type.Underlying().(*types.Slice); ok {
						set["conv_license"] = true
					}
				}
			}
			if sel, ok := x.Fun.(*ast.SelectorExpr); ok && sel.Sel.Name == "url" {
				if s := info.Selections[sel]; s != nil && strings.Contains(typeString(s.Recv()), "RpmCmd") {
					lit := len(x.Args) == 1 && exprString(fset, x.Args[0]) == "true"
					if !lit {
						set["url_raw"] = true
					}
				}
			}
		case *ast.SelectorExpr:
			if x.Sel.Name == "Proxy" {
				if s := info.Selections[x]; s != nil && s.Kind() == types.FieldVal {
					set["proxy_field"] = true
				}
			}
			if id, ok := x.X.(*ast.Ident); ok && x.Sel.Name == "Args" {
				if pn, ok := info.Uses[id].(*types.PkgName); ok && pn.Imported().Path() == "os" {
					set["os_args"] = true
				}
			}
		}
		return true
	}
	ast.Inspect(e, walk)
	var out []string
	for k := range set {
		out = append(out, k)
	}
	sort.Strings(out)
	return out
}

func lsClass(fset *token.FileSet, info *types.Info, e ast.Expr) string {
	switch x := e.(type) {
	case *ast.BasicLit:
		return "lit"
	case *ast.Ident:
		return "ident"
	case *ast.SelectorExpr:
		return "selector"
	case *ast.CallExpr:
		if tv, ok := info.Types[x.Fun]; ok && tv.IsType() {
			return "conv:" + typeString(tv.Type)
		}
		return "call:" + exprString(fset, x.Fun)
	case *ast.IndexExpr:
		return "index:" + exprString(fset, x.X)
	case *ast.StarExpr:
		return "deref"
	case *ast.UnaryExpr:
		return "unary"
	case *ast.BinaryExpr:
		return "binary"
	case *ast.SliceExpr:
		return "slice:" + exprString(fset, x.X)
	case *ast.ParenExpr:
		return lsClass(fset, info, x.X)
	}
	return "expr"
}

// the expression that defines a local variable (:=, var, range), as text and node
func lsDef(fset *token.FileSet, info *types.Info, fd *ast.FuncDecl, id *ast.Ident) (string, ast.Expr, token.Pos) {
	obj, ok := info.Uses[id].(*types.Var)
	if !ok || obj.IsField() {
		return "", nil, token.NoPos
	}
	var text string
	var node ast.Expr
	var at token.Pos
	ast.Inspect(fd, func(n ast.Node) bool {
		if text != "" {
			return false
		}
		switch s := n.(type) {
		case *ast.AssignStmt:
			if s.Tok != token.DEFINE {
				return true
			}
			for i, l := range s.Lhs {
				if li, ok := l.(*ast.Ident); ok && info.Defs[li] == obj {
					if len(s.Rhs) == len(s.Lhs) {
						text, node = exprString(fset, s.Rhs[i]), s.Rhs[i]
					} else if len(s.Rhs) == 1 {
						text, node = "multi:"+exprString(fset, s.Rhs[0]), s.Rhs[0]
					}
					at = s.Pos()
				}
			}
		case *ast.RangeStmt:
			for _, l := range []ast.Expr{s.Key, s.Value} {
				if li, ok := l.(*ast.Ident); ok && l != nil && info.Defs[li] == obj {
					text, node, at = "range:"+exprString(fset, s.X), s.X, s.Pos()
				}
			}
		case *ast.ValueSpec:
			for i, nm := range s.Names {
				if info.Defs[nm] == obj && i < len(s.Values) {
					text, node, at = exprString(fset, s.Values[i]), s.Values[i], s.Pos()
				}
			}
		}
		return true
	})
	if text == "" {
		// parameters and receivers
		if fd.Type.Params != nil {
			for _, f := range fd.Type.Params.List {
				for _, nm := range f.Names {
					if info.Defs[nm] == obj {
						return "param", nil, token.NoPos
					}
				}
			}
		}
		if fd.Recv != nil {
			for _, f := range fd.Recv.List {
				for _, nm := range f.Names {
					if info.Defs[nm] == obj {
						return "receiver", nil, token.NoPos
					}
				}
			}
		}
	}
	return text, node, at
}

// the variable is defined by a composite literal (possibly &T{...}) with Proxy: "**REDACTED**", and no
// assignment to <var>.Proxy lies between the definition and the call
func lsRedactedLit(fset *token.FileSet, info *types.Info, fd *ast.FuncDecl, id *ast.Ident, def ast.Expr,
	defPos, callPos token.Pos) bool {
	if def == nil {
		return false
	}
	if u, ok := def.(*ast.UnaryExpr); ok && u.Op == token.AND {
		def = u.X
	}
	cl, ok := def.(*ast.CompositeLit)
	if !ok {
		return false
	}
	found := false
	for _, el := range cl.Elts {
		kv, ok := el.(*ast.KeyValueExpr)
		if !ok {
			return false // positional literal: not understood
		}
		if k, ok := kv.Key.(*ast.Ident); ok && k.Name == "Proxy" {
			if bl, ok := kv.Value.(*ast.BasicLit); ok && bl.Value == "\"**REDACTED**\"" {
				found = true
			}
		}
	}
	if !found {
		return false
	}
	obj := info.Uses[id]
	clean := true
	ast.Inspect(fd, func(n ast.Node) bool {
		as, ok := n.(*ast.AssignStmt)
		if !ok {
			return true
		}
		if as.Pos() <= defPos || as.Pos() >= callPos {
			return true
		}
		for _, l := range as.Lhs {
			// x.Proxy = ..., or x = ... / *x = ...
			if sel, ok := l.(*ast.SelectorExpr); ok {
				if xi, ok := sel.X.(*ast.Ident); ok && info.Uses[xi] == obj {
					clean = false
				}
			}
			if xi, ok := l.(*ast.Ident); ok && info.Uses[xi] == obj {
				clean = false
			}
			if st, ok := l.(*ast.StarExpr); ok {
				if xi, ok := st.X.(*ast.Ident); ok && info.Uses[xi] == obj {
					clean = false
				}
			}
		}
		return true
	})
	return clean
}

func lsArg(fset *token.FileSet, info *types.Info, fd *ast.FuncDecl, call *ast.CallExpr, e ast.Expr) logArg {
	a := logArg{Expr: exprString(fset, e), Class: lsClass(fset, info, e), Features: []string{}}
	if tv, ok := info.Types[e]; ok {
		a.Type = typeString(tv.Type)
		if structWithProxy(tv.Type) {
			a.Features = append(a.Features, "proxy_struct")
		}
		if rawLicenseField(tv.Type, 0) {
			a.Features = append(a.Features, "raw_license")
		}
	}
	a.Features = append(a.Features, lsFeatures(fset, info, e)...)
	inner := e
	if p, ok := inner.(*ast.ParenExpr); ok {
		inner = p.X
	}
	if id, ok := inner.(*ast.Ident); ok {
		text, node, at := lsDef(fset, info, fd, id)
		a.Def = text
		if node != nil {
			for _, f := range lsFeatures(fset, info, node) {
				a.Features = append(a.Features, "def:"+f)
			}
			if structWithProxy(info.Types[e].Type) && lsRedactedLit(fset, info, fd, id, node, at, call.Pos()) {
				a.Features = append(a.Features, "redacted_lit")
			}
		}
	}
	return a
}
