module verif/gofacts

go 1.23
