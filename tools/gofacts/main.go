// gofacts: small translator from /repo Go sources to facts.
//
//	gofacts consts <dir>            -> JSON {name: {"kind": "int"|"string"|..., "value": "..."}} for every
//	                                   package-level constant in <dir> (non-test files), evaluated by go/types
//	                                   so that `2 * 1000` and `2000` are the same fact.
//	gofacts constblock <file> <type> -> constants of the named type declared in <file> (type-checked in isolation
//	                                   together with the type's own declaration).
package main

import (
	"encoding/json"
	"fmt"
	"go/ast"
	"go/constant"
	"go/importer"
	"go/parser"
	"go/printer"
	"go/token"
	"go/types"
	"os"
	"sort"
	"strings"
)

type fact struct {
	Kind  string `json:"kind"`
	Type  string `json:"type"`
	Value string `json:"value"`
}

func die(f string, a ...interface{}) {
	fmt.Fprintf(os.Stderr, f+"\n", a...)
	os.Exit(1)
}

func constFacts(pkg *types.Package) map[string]fact {
	out := map[string]fact{}
	sc := pkg.Scope()
	names := sc.Names()
	sort.Strings(names)
	for _, n := range names {
		c, ok := sc.Lookup(n).(*types.Const)
		if !ok {
			continue
		}
		v := c.Val()
		f := fact{Type: c.Type().String()}
		switch v.Kind() {
		case constant.Int:
			f.Kind, f.Value = "int", v.ExactString()
		case constant.String:
			f.Kind, f.Value = "string", constant.StringVal(v)
		case constant.Bool:
			f.Kind, f.Value = "bool", v.ExactString()
		case constant.Float:
			f.Kind, f.Value = "float", v.ExactString()
		default:
			f.Kind, f.Value = "other", v.ExactString()
		}
		out[n] = f
	}
	return out
}

func main() {
	if len(os.Args) < 3 {
		die("usage: gofacts consts <dir> | constblock <file> <type>")
	}
	if wiringMode(os.Args) { // complit / callargs / retconds: see wiring.go
		return
	}
	if logsitesMode(os.Args) { // logsites: see logsites.go (C14)
		return
	}
	fset := token.NewFileSet()
	conf := types.Config{Importer: importer.ForCompiler(fset, "source", nil), Error: func(error) {}}
	switch os.Args[1] {
	case "consts":
		pkgs, err := parser.ParseDir(fset, os.Args[2], func(fi os.FileInfo) bool {
			return !strings.HasSuffix(fi.Name(), "_test.go")
		}, 0)
		if err != nil {
			die("parse: %v", err)
		}
		res := map[string]fact{}
		for _, p := range pkgs {
			var files []*ast.File
			for _, f := range p.Files {
				files = append(files, f)
			}
			tp, _ := conf.Check(p.Name, fset, files, nil)
			if tp == nil {
				die("typecheck failed")
			}
			for k, v := range constFacts(tp) {
				res[k] = v
			}
		}
		json.NewEncoder(os.Stdout).Encode(res)
	case "constblock":
		if len(os.Args) < 4 {
			die("usage: gofacts constblock <file> <type>")
		}
		f, err := parser.ParseFile(fset, os.Args[2], nil, 0)
		if err != nil {
			die("parse: %v", err)
		}
		want := os.Args[3]
		var sb strings.Builder
		sb.WriteString("package p\n")
		for _, d := range f.Decls {
			gd, ok := d.(*ast.GenDecl)
			if !ok {
				continue
			}
			keep := false
			if gd.Tok == token.TYPE {
				for _, s := range gd.Specs {
					if s.(*ast.TypeSpec).Name.Name == want {
						keep = true
					}
				}
			}
			if gd.Tok == token.CONST {
				for _, s := range gd.Specs {
					vs := s.(*ast.ValueSpec)
					if id, ok := vs.Type.(*ast.Ident); ok && id.Name == want {
						keep = true
					}
				}
			}
			if keep {
				printer.Fprint(&sb, fset, gd)
				sb.WriteString("\n")
			}
		}
		fset2 := token.NewFileSet()
		f2, err := parser.ParseFile(fset2, "block.go", sb.String(), 0)
		if err != nil {
			die("reparse: %v\n%s", err, sb.String())
		}
		tp, _ := conf.Check("p", fset2, []*ast.File{f2}, nil)
		if tp == nil {
			die("typecheck failed")
		}
		json.NewEncoder(os.Stdout).Encode(constFacts(tp))
	default:
		die("unknown mode")
	}
}
