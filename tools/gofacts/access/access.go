// access: coarse, type-based access table of the daemon's goroutines (property C17).
//
//	access <daemon-dir> [extra-root ...]
//
// Loads ./cmd/daemon and ./internal/... of the module in <daemon-dir> (non-test files), builds SSA
// for those packages only (dependencies are bodiless), computes a CHA call graph, and for every
// goroutine entry point ("role": main.main, every function started by a `go` statement that is
// reachable from a role, and the extra roots named on the command line) the set of struct fields and
// package-level variables of the module that are read / written by the functions reachable from
// it through ordinary calls (a `go` statement starts a new role instead of extending the caller's).
//
// Output (JSON on stdout):
//
//	{"roles": [{"role": r, "spawned_by": [..], "pos": "file:line"}],
//	 "accesses": [{"role": r, "field": "pkg.Type.field" | "pkg.var", "kind": "R"|"W", "pos": "file:line", "fn": f}]}
//
// Accesses through a pointer to an object allocated in the same function (composite literals,
// locals) are initialisation of unpublished memory and are not reported.  Fields whose type is a
// synchronisation primitive (sync.*, sync/atomic.*) are not reported.  A whole-struct load or store
// through a pointer is reported as field "*".  A write to an element of a map or slice held in a
// field is a write of that field.
package main

import (
	"encoding/json"
	"fmt"
	"go/token"
	"go/types"
	"os"
	"path/filepath"
	"sort"
	"strings"

	"golang.org/x/tools/go/callgraph"
	"golang.org/x/tools/go/callgraph/cha"
	"golang.org/x/tools/go/callgraph/vta"
	"golang.org/x/tools/go/packages"
	"golang.org/x/tools/go/ssa"
	"golang.org/x/tools/go/ssa/ssautil"
)

type access struct {
	Role  string `json:"role"`
	Field string `json:"field"`
	Kind  string `json:"kind"`
	Pos   string `json:"pos"`
	Fn    string `json:"fn"`
}

type roleInfo struct {
	Role      string   `json:"role"`
	SpawnedBy []string `json:"spawned_by"`
	Pos       string   `json:"pos"`
}

var (
	modPath string
	fset    *token.FileSet
	root    string
)

func die(f string, a ...interface{}) {
	fmt.Fprintf(os.Stderr, f+"\n", a...)
	os.Exit(1)
}

// short name of a package path inside the module: last element
func shortPkg(p *types.Package) string {
	if p == nil {
		return "?"
	}
	return p.Name()
}

func inModule(p *types.Package) bool {
	return p != nil && (p.Path() == modPath || strings.HasPrefix(p.Path(), modPath+"/"))
}

func fnName(f *ssa.Function) string {
	s := f.String()
	// strip import paths: "(*a/b/c.T).M" -> "(*c.T).M"; "a/b/c.F$1" -> "c.F$1"
	var out strings.Builder
	i := 0
	for i < len(s) {
		j := i
		for j < len(s) && (s[j] == '/' || s[j] == '.' || s[j] == '-' || s[j] == '_' || (s[j] >= 'a' && s[j] <= 'z') || (s[j] >= 'A' && s[j] <= 'Z') || (s[j] >= '0' && s[j] <= '9')) {
			j++
		}
		if j > i {
			tok := s[i:j]
			if k := strings.LastIndex(tok, "/"); k >= 0 {
				tok = tok[k+1:]
			}
			out.WriteString(tok)
			i = j
		} else {
			out.WriteByte(s[i])
			i++
		}
	}
	return out.String()
}

func posStr(p token.Pos) string {
	if !p.IsValid() {
		return ""
	}
	pp := fset.Position(p)
	rel, err := filepath.Rel(root, pp.Filename)
	if err != nil {
		rel = pp.Filename
	}
	return fmt.Sprintf("%s:%d", rel, pp.Line)
}

func isSyncType(t types.Type) bool {
	for {
		switch u := t.(type) {
		case *types.Pointer:
			t = u.Elem()
			continue
		case *types.Named:
			if o := u.Obj(); o != nil && o.Pkg() != nil {
				pp := o.Pkg().Path()
				if pp == "sync" || pp == "sync/atomic" {
					return true
				}
			}
		}
		return false
	}
}

// structName returns "pkg.Type" for a (pointer to a) named struct type of the module.
func structName(t types.Type) (string, bool) {
	if p, ok := t.Underlying().(*types.Pointer); ok {
		t = p.Elem()
	}
	if n, ok := t.(*types.Named); ok {
		if _, ok := n.Underlying().(*types.Struct); ok && n.Obj() != nil && inModule(n.Obj().Pkg()) {
			return shortPkg(n.Obj().Pkg()) + "." + n.Obj().Name(), true
		}
	}
	return "", false
}

// fieldOf names the field addressed by a FieldAddr, or "" when it is not a module struct.
func fieldOf(fa *ssa.FieldAddr) (string, types.Type) {
	pt, ok := fa.X.Type().Underlying().(*types.Pointer)
	if !ok {
		return "", nil
	}
	sn, ok := structName(pt.Elem())
	if !ok {
		return "", nil
	}
	st := pt.Elem().Underlying().(*types.Struct)
	f := st.Field(fa.Field)
	return sn + "." + f.Name(), f.Type()
}

// local reports whether the address is derived from an allocation made in the same function.
func local(v ssa.Value, depth int) bool {
	if depth > 8 {
		return false
	}
	switch x := v.(type) {
	case *ssa.Alloc:
		return true
	case *ssa.FieldAddr:
		return local(x.X, depth+1)
	case *ssa.IndexAddr:
		return local(x.X, depth+1)
	}
	return false
}

// origin traces a loaded map/slice value back to the field or global it was loaded from.
func origin(v ssa.Value, depth int) (string, bool) {
	if depth > 6 {
		return "", false
	}
	switch x := v.(type) {
	case *ssa.UnOp:
		if x.Op == token.MUL {
			return addrName(x.X, depth+1)
		}
	case *ssa.Slice:
		return origin(x.X, depth+1)
	case *ssa.ChangeType:
		return origin(x.X, depth+1)
	}
	return "", false
}

// addrName names the memory an address designates: a field, a global, or an element of a
// map/slice held in a field or global.
func addrName(a ssa.Value, depth int) (string, bool) {
	if depth > 6 {
		return "", false
	}
	switch x := a.(type) {
	case *ssa.FieldAddr:
		if local(x.X, 0) {
			return "", false
		}
		n, ft := fieldOf(x)
		if n == "" || isSyncType(ft) {
			return "", false
		}
		return n, true
	case *ssa.Global:
		if !inModule(x.Pkg.Pkg) || isSyncType(x.Type()) {
			return "", false
		}
		if strings.HasPrefix(x.Name(), "init$") {
			return "", false
		}
		return shortPkg(x.Pkg.Pkg) + "." + x.Name(), true
	case *ssa.IndexAddr:
		// element of a slice/array: the container's holder
		if local(x.X, 0) {
			return "", false
		}
		if n, ok := origin(x.X, depth+1); ok {
			return n, true
		}
		return addrName(x.X, depth+1)
	}
	return "", false
}

type collector struct {
	seen map[string]bool
	out  []access
}

func (c *collector) add(role, field, kind string, pos token.Pos, fn *ssa.Function) {
	k := role + "\x00" + field + "\x00" + kind
	if c.seen[k] {
		return
	}
	c.seen[k] = true
	c.out = append(c.out, access{Role: role, Field: field, Kind: kind, Pos: posStr(pos), Fn: fnName(fn)})
}

// callbacks: a module value converted to an interface may have the interface's methods called by
// library code whose body the analysis does not see (container/heap, sort, fmt, encoding/json).
func callbacks(prog *ssa.Program, mi *ssa.MakeInterface) []*ssa.Function {
	t := mi.X.Type()
	base := t
	if p, ok := t.Underlying().(*types.Pointer); ok {
		base = p.Elem()
	}
	n, ok := base.(*types.Named)
	if !ok || n.Obj() == nil || !inModule(n.Obj().Pkg()) {
		return nil
	}
	it, ok := mi.Type().Underlying().(*types.Interface)
	if !ok {
		return nil
	}
	// interfaces declared in the module are invoked by module code, which the call graph sees
	if in, ok := mi.Type().(*types.Named); ok && in.Obj() != nil && inModule(in.Obj().Pkg()) {
		return nil
	}
	var names []string
	if it.NumMethods() == 0 {
		names = []string{"String", "Error", "MarshalJSON", "MarshalText", "GoString", "Format"}
	} else {
		for i := 0; i < it.NumMethods(); i++ {
			names = append(names, it.Method(i).Name())
		}
	}
	ms := prog.MethodSets.MethodSet(t)
	var out []*ssa.Function
	for _, name := range names {
		if sel := ms.Lookup(n.Obj().Pkg(), name); sel != nil {
			if f := prog.MethodValue(sel); f != nil {
				out = append(out, f)
			}
		}
	}
	return out
}

func isPkgInit(fn *ssa.Function) bool {
	return fn.Synthetic == "package initializer" || (fn.Parent() == nil && fn.Signature.Recv() == nil && (fn.Name() == "init" || strings.HasPrefix(fn.Name(), "init#")))
}

func (c *collector) scan(prog *ssa.Program, role string, fn *ssa.Function) (extra []*ssa.Function) {
	pkgInit := isPkgInit(fn)
	for _, b := range fn.Blocks {
		for _, ins := range b.Instrs {
			switch x := ins.(type) {
			case *ssa.MakeInterface:
				extra = append(extra, callbacks(prog, x)...)
			case *ssa.Store:
				if pkgInit {
					// package-level variable initialisers run before main.main and before any goroutine
					continue
				}
				if n, ok := addrName(x.Addr, 0); ok {
					c.add(role, n, "W", x.Pos(), fn)
				} else if pt, ok := x.Addr.Type().Underlying().(*types.Pointer); ok && !local(x.Addr, 0) {
					if sn, ok := structName(pt.Elem()); ok {
						if _, isParamOrLoad := x.Addr.(*ssa.Alloc); !isParamOrLoad {
							c.add(role, sn+".*", "W", x.Pos(), fn)
						}
					}
				}
			case *ssa.UnOp:
				if x.Op != token.MUL {
					continue
				}
				if n, ok := addrName(x.X, 0); ok {
					c.add(role, n, "R", x.Pos(), fn)
				} else if pt, ok := x.X.Type().Underlying().(*types.Pointer); ok && !local(x.X, 0) {
					if sn, ok := structName(pt.Elem()); ok {
						c.add(role, sn+".*", "R", x.Pos(), fn)
					}
				}
			case *ssa.MapUpdate:
				if n, ok := origin(x.Map, 0); ok {
					c.add(role, n, "W", x.Pos(), fn)
				}
			case *ssa.Lookup:
				if n, ok := origin(x.X, 0); ok {
					c.add(role, n, "R", x.Pos(), fn)
				}
			case *ssa.Range:
				if n, ok := origin(x.X, 0); ok {
					c.add(role, n, "R", x.Pos(), fn)
				}
			case *ssa.Call:
				// delete(m, k) and append/copy into a field's backing store
				if bi, ok := x.Call.Value.(*ssa.Builtin); ok {
					switch bi.Name() {
					case "delete":
						if n, ok := origin(x.Call.Args[0], 0); ok {
							c.add(role, n, "W", x.Pos(), fn)
						}
					case "copy":
						if n, ok := origin(x.Call.Args[0], 0); ok {
							c.add(role, n, "W", x.Pos(), fn)
						}
					}
				}
			}
		}
	}
	return extra
}

func main() {
	if len(os.Args) < 2 {
		die("usage: access <daemon-dir> [extra-root ...]")
	}
	root, _ = filepath.Abs(os.Args[1])
	extra := map[string]bool{}
	for _, r := range os.Args[2:] {
		extra[r] = true
	}
	fset = token.NewFileSet()
	cfg := &packages.Config{
		Mode: packages.NeedName | packages.NeedFiles | packages.NeedCompiledGoFiles | packages.NeedImports |
			packages.NeedTypes | packages.NeedTypesSizes | packages.NeedSyntax | packages.NeedTypesInfo | packages.NeedModule,
		Dir:   root,
		Fset:  fset,
		Tests: false,
		Env:   os.Environ(),
	}
	pkgs, err := packages.Load(cfg, "./cmd/daemon", "./internal/...")
	if err != nil {
		die("load: %v", err)
	}
	nerr := 0
	packages.Visit(pkgs, nil, func(p *packages.Package) {
		for _, e := range p.Errors {
			fmt.Fprintf(os.Stderr, "%s: %v\n", p.PkgPath, e)
			nerr++
		}
	})
	if nerr > 0 {
		die("packages contain errors")
	}
	for _, p := range pkgs {
		if p.Module != nil {
			modPath = p.Module.Path
			break
		}
	}
	if modPath == "" {
		die("module path not found")
	}
	prog, spkgs := ssautil.Packages(pkgs, ssa.InstantiateGenerics)
	prog.Build()
	var mainPkg *ssa.Package
	for _, sp := range spkgs {
		if sp != nil && sp.Pkg.Name() == "main" {
			mainPkg = sp
		}
	}
	if mainPkg == nil {
		die("no main package")
	}
	cg := cha.CallGraph(prog)
	if os.Getenv("ACCESS_CG") != "cha" {
		cg = vta.CallGraph(ssautil.AllFunctions(prog), cg)
	}

	hasBody := func(f *ssa.Function) bool {
		return f != nil && len(f.Blocks) > 0 && f.Pkg != nil && inModule(f.Pkg.Pkg) ||
			(f != nil && len(f.Blocks) > 0 && f.Parent() != nil)
	}

	// extra roots by short name
	extraFns := map[*ssa.Function]bool{}
	for f := range cg.Nodes {
		if f != nil && extra[fnName(f)] {
			extraFns[f] = true
		}
	}
	for r := range extra {
		found := false
		for f := range extraFns {
			if fnName(f) == r {
				found = true
			}
		}
		if !found {
			die("extra root %s not found", r)
		}
	}

	type roleT struct {
		fn      *ssa.Function
		spawned map[string]bool
	}
	roles := map[*ssa.Function]*roleT{}
	var queue []*ssa.Function
	addRole := func(f *ssa.Function, by string) {
		if !hasBody(f) {
			return
		}
		r, ok := roles[f]
		if !ok {
			r = &roleT{fn: f, spawned: map[string]bool{}}
			roles[f] = r
			queue = append(queue, f)
		}
		if by != "" {
			r.spawned[by] = true
		}
	}
	addRole(mainPkg.Func("main"), "")
	if in := mainPkg.Func("init"); in != nil {
		_ = in // package initialisers run before main on the main goroutine; part of role main
	}
	for f := range extraFns {
		addRole(f, "(extra root)")
	}

	col := &collector{seen: map[string]bool{}}
	for len(queue) > 0 {
		rf := queue[0]
		queue = queue[1:]
		role := fnName(rf)
		visited := map[*ssa.Function]bool{}
		var stack []*ssa.Function
		stack = append(stack, rf)
		if rf == mainPkg.Func("main") {
			// package initialisers of the module
			for _, sp := range prog.AllPackages() {
				if inModule(sp.Pkg) {
					if in := sp.Func("init"); in != nil {
						stack = append(stack, in)
					}
				}
			}
		}
		for len(stack) > 0 {
			f := stack[len(stack)-1]
			stack = stack[:len(stack)-1]
			if visited[f] || !hasBody(f) {
				continue
			}
			visited[f] = true
			for _, cb := range col.scan(prog, role, f) {
				stack = append(stack, cb)
			}
			n := cg.Nodes[f]
			if n == nil {
				continue
			}
			for _, e := range n.Out {
				callee := e.Callee.Func
				if _, isGo := e.Site.(*ssa.Go); isGo {
					addRole(callee, role)
					continue
				}
				if extraFns[callee] && callee != rf {
					continue
				}
				stack = append(stack, callee)
			}
		}
	}

	var rl []roleInfo
	for f, r := range roles {
		var by []string
		for b := range r.spawned {
			by = append(by, b)
		}
		sort.Strings(by)
		rl = append(rl, roleInfo{Role: fnName(f), SpawnedBy: by, Pos: posStr(f.Pos())})
	}
	sort.Slice(rl, func(i, j int) bool { return rl[i].Role < rl[j].Role })
	sort.Slice(col.out, func(i, j int) bool {
		a, b := col.out[i], col.out[j]
		if a.Field != b.Field {
			return a.Field < b.Field
		}
		if a.Role != b.Role {
			return a.Role < b.Role
		}
		return a.Kind < b.Kind
	})
	_ = callgraph.Node{}
	enc := json.NewEncoder(os.Stdout)
	enc.SetIndent("", " ")
	enc.Encode(map[string]interface{}{"module": modPath, "roles": rl, "accesses": col.out})
}
