module verif/flagfacts

go 1.23
