// flagfacts: syntactic facts about the daemon's settings, read from the Go sources (go/ast), and
// the Unicode class tables of the toolchain's unicode package.  Used by tools/gens/flags.py (C19).
//
//	flagfacts settings <cmd/daemon/main.go> <internal/newrelic/listener.go>
//	    -> JSON {
//	         "fields":   [{"name","type","tag"}...]            the fields of `type Config struct`, in order
//	         "daemon":   [{"method","target","name","def"}...] calls X.<T>Var(&target, "name", def, ..) and
//	                                                           X.Var(value, "name", ..) in createDaemonFlagSet
//	         "legacy":   [...]                                 the same for createLegacyFlagSet
//	         "defaults": {"Field": "expr", ...}                the composite literal of `defaultCfg`
//	         "listen":   {"linux": "...", "other": "..."}      DefaultListenSocket: the literal returned under
//	                                                           runtime.GOOS == "linux" and the one in the else branch
//	       }
//	flagfacts unicode
//	    -> JSON {"version": "go1.x", "space": [[lo,hi]...], "letter": [...], "number": [...]}
//	       maximal ranges of unicode.IsSpace / IsLetter / IsNumber over 0..0x10FFFF
package main

import (
	"bytes"
	"encoding/json"
	"fmt"
	"go/ast"
	"go/parser"
	"go/printer"
	"go/token"
	"os"
	"reflect"
	"runtime"
	"strconv"
	"strings"
	"unicode"
)

func die(f string, a ...interface{}) {
	fmt.Fprintf(os.Stderr, f+"\n", a...)
	os.Exit(1)
}

func str(fset *token.FileSet, n ast.Node) string {
	var b bytes.Buffer
	printer.Fprint(&b, fset, n)
	return b.String()
}

type field struct {
	Name string `json:"name"`
	Type string `json:"type"`
	Tag  string `json:"tag"`
	Has  bool   `json:"has_tag"`
}

type flagCall struct {
	Method string `json:"method"`
	Target string `json:"target"`
	Name   string `json:"name"`
	Def    string `json:"def"`
}

func flagCalls(fset *token.FileSet, fd *ast.FuncDecl) []flagCall {
	var out []flagCall
	ast.Inspect(fd.Body, func(n ast.Node) bool {
		ce, ok := n.(*ast.CallExpr)
		if !ok {
			return true
		}
		sel, ok := ce.Fun.(*ast.SelectorExpr)
		if !ok {
			return true
		}
		m := sel.Sel.Name
		if m != "Var" && !strings.HasSuffix(m, "Var") {
			return true
		}
		if len(ce.Args) < 2 {
			return true
		}
		lit, ok := ce.Args[1].(*ast.BasicLit)
		if !ok || lit.Kind != token.STRING {
			return true
		}
		name, err := strconv.Unquote(lit.Value)
		if err != nil {
			return true
		}
		fc := flagCall{Method: m, Target: str(fset, ce.Args[0]), Name: name}
		if m != "Var" && len(ce.Args) >= 3 {
			fc.Def = str(fset, ce.Args[2])
		}
		out = append(out, fc)
		return true
	})
	return out
}

func settings(mainGo, listenerGo string) {
	fset := token.NewFileSet()
	f, err := parser.ParseFile(fset, mainGo, nil, 0)
	if err != nil {
		die("parse: %v", err)
	}
	res := map[string]interface{}{}
	var fields []field
	defaults := map[string]string{}
	for _, d := range f.Decls {
		switch x := d.(type) {
		case *ast.GenDecl:
			for _, s := range x.Specs {
				if ts, ok := s.(*ast.TypeSpec); ok && ts.Name.Name == "Config" {
					st, ok := ts.Type.(*ast.StructType)
					if !ok {
						die("Config is not a struct")
					}
					for _, fl := range st.Fields.List {
						tag, has := "", false
						if fl.Tag != nil {
							raw, _ := strconv.Unquote(fl.Tag.Value)
							tag, has = reflect.StructTag(raw).Lookup("config")
						}
						if len(fl.Names) == 0 {
							fields = append(fields, field{Name: "?embedded", Type: str(fset, fl.Type), Tag: tag, Has: has})
						}
						for _, n := range fl.Names {
							fields = append(fields, field{Name: n.Name, Type: str(fset, fl.Type), Tag: tag, Has: has})
						}
					}
				}
				if vs, ok := s.(*ast.ValueSpec); ok {
					for i, n := range vs.Names {
						if n.Name == "defaultCfg" && i < len(vs.Values) {
							cl, ok := vs.Values[i].(*ast.CompositeLit)
							if !ok {
								die("defaultCfg is not a composite literal")
							}
							for _, e := range cl.Elts {
								kv, ok := e.(*ast.KeyValueExpr)
								if !ok {
									die("defaultCfg: positional element")
								}
								defaults[str(fset, kv.Key)] = str(fset, kv.Value)
							}
						}
					}
				}
			}
		case *ast.FuncDecl:
			if x.Recv == nil && x.Body != nil {
				switch x.Name.Name {
				case "createDaemonFlagSet":
					res["daemon"] = flagCalls(fset, x)
				case "createLegacyFlagSet":
					res["legacy"] = flagCalls(fset, x)
				}
			}
		}
	}
	res["fields"] = fields
	res["defaults"] = defaults

	// DefaultListenSocket
	lf, err := parser.ParseFile(fset, listenerGo, nil, 0)
	if err != nil {
		die("parse: %v", err)
	}
	listen := map[string]string{}
	for _, d := range lf.Decls {
		fd, ok := d.(*ast.FuncDecl)
		if !ok || fd.Name.Name != "DefaultListenSocket" || fd.Body == nil {
			continue
		}
		retLit := func(b *ast.BlockStmt) (string, bool) {
			for _, s := range b.List {
				if r, ok := s.(*ast.ReturnStmt); ok && len(r.Results) == 1 {
					if l, ok := r.Results[0].(*ast.BasicLit); ok && l.Kind == token.STRING {
						v, err := strconv.Unquote(l.Value)
						return v, err == nil
					}
				}
			}
			return "", false
		}
		for _, s := range fd.Body.List {
			is, ok := s.(*ast.IfStmt)
			if !ok {
				continue
			}
			if str(fset, is.Cond) == `runtime.GOOS == "linux"` {
				if v, ok := retLit(is.Body); ok {
					listen["linux"] = v
				}
				if eb, ok := is.Else.(*ast.BlockStmt); ok {
					if v, ok := retLit(eb); ok {
						listen["other"] = v
					}
				}
			}
		}
		if _, ok := listen["other"]; !ok {
			if v, ok := retLit(fd.Body); ok {
				listen["other"] = v
			}
		}
	}
	res["listen"] = listen
	json.NewEncoder(os.Stdout).Encode(res)
}

func ranges(f func(rune) bool) [][2]int {
	var out [][2]int
	start := -1
	for r := 0; r <= unicode.MaxRune+1; r++ {
		in := r <= unicode.MaxRune && f(rune(r))
		if in && start < 0 {
			start = r
		}
		if !in && start >= 0 {
			out = append(out, [2]int{start, r - 1})
			start = -1
		}
	}
	return out
}

func main() {
	if len(os.Args) < 2 {
		die("usage: flagfacts settings <main.go> <listener.go> | unicode")
	}
	switch os.Args[1] {
	case "settings":
		if len(os.Args) < 4 {
			die("usage: flagfacts settings <main.go> <listener.go>")
		}
		settings(os.Args[2], os.Args[3])
	case "unicode":
		json.NewEncoder(os.Stdout).Encode(map[string]interface{}{
			"version": runtime.Version(),
			"space":   ranges(unicode.IsSpace),
			"letter":  ranges(unicode.IsLetter),
			"number":  ranges(unicode.IsNumber),
		})
	default:
		die("unknown mode %s", os.Args[1])
	}
}
