#!/usr/bin/env python3
"""Weaver for C12: a copy of the CURRENT harvest_trigger.go in which every `time.NewTicker(` call goes
through a hook that a test can install (VerifNewTicker).  With no hook installed the behaviour is unchanged.

Careful text rewrite: comments and string literals are skipped by a small Go lexer; the rewrite fails loudly
(exception) if no call is found, if `time` is not the imported name of package "time", or if the identifiers it
adds already exist in the file.
"""
import re
import sys

HOOK = '''

// ---- woven by /verif/tools/weave/weave_ticker.py (verification harness only) ----

// VerifNewTicker, when set, replaces time.NewTicker in this file.
var VerifNewTicker func(d time.Duration) *time.Ticker

func verifNewTicker(d time.Duration) *time.Ticker {
	if VerifNewTicker != nil {
		return VerifNewTicker(d)
	}
	return time.NewTicker(d)
}
'''


def code_spans(src):
    """Yield (start, end) of the parts of src that are code (not comments, not string/rune literals)."""
    i, n, start = 0, len(src), 0
    while i < n:
        c = src[i]
        two = src[i:i + 2]
        if two == "//":
            yield (start, i)
            j = src.find("\n", i)
            i = n if j < 0 else j
            start = i
        elif two == "/*":
            yield (start, i)
            j = src.find("*/", i + 2)
            if j < 0:
                raise ValueError("unterminated comment")
            i = j + 2
            start = i
        elif c == '"' or c == "'":
            yield (start, i)
            j = i + 1
            while j < n and src[j] != c:
                j += 2 if src[j] == "\\" else 1
            i = j + 1
            start = i
        elif c == "`":
            yield (start, i)
            j = src.find("`", i + 1)
            if j < 0:
                raise ValueError("unterminated raw string")
            i = j + 1
            start = i
        else:
            i += 1
    yield (start, n)


def weave(src):
    if "verifNewTicker" in src or "VerifNewTicker" in src:
        raise ValueError("weave: the source already contains the hook identifiers")
    if not re.search(r'(?m)^\s*(?:import\s+)?"time"\s*$', src):
        raise ValueError('weave: package "time" is not imported under its own name')
    out, count, last = [], 0, 0
    pat = re.compile(r"\btime\s*\.\s*NewTicker\s*\(")
    for a, b in code_spans(src):
        out.append(src[last:a])
        seg, k = pat.subn("verifNewTicker(", src[a:b])
        count += k
        out.append(seg)
        last = b
    out.append(src[last:])
    if count == 0:
        raise ValueError("weave: no time.NewTicker( call found -- the ticker is created some other way now")
    return "".join(out) + HOOK, count


if __name__ == "__main__":
    text, n = weave(open(sys.argv[1]).read())
    open(sys.argv[2], "w").write(text)
    print("woven %d call(s)" % n)
