#!/bin/sh
# Re-check every compiled file of the development with the independent checker (about 10 minutes).
# Works on a private copy so that the shared .vo files are not disturbed; the copy is removed afterwards.
set -e
d=$(mktemp -d /tmp/coqchk.XXXXXX)
trap 'rm -rf "$d"' EXIT
rsync -a /verif/coq/ "$d"/
cd "$d"
python3 /verif/tools/gen_all.py >/dev/null 2>&1 || true
[ -f Makefile ] || coq_makefile -f _CoqProject -o Makefile
make -j16 >/dev/null 2>&1
mods=$(ls *.vo Gen/*.vo | sed 's/\.vo$//; s#^Gen/#Gen.#; s/^/Verif./' | tr '\n' ' ')
timeout 7200 coqchk -silent -o -Q . Verif $mods 2>&1 | tee /verif/coqchk.log
