#!/usr/bin/env python3
"""Writes /verif/MANIFEST.json from the table below (one entry per claimed property)."""
import json

PROC_NOTE = ("Model Processor.v is hand-written and tied to the code by differential execution of random histories against the "
             "real Processor (mock collector, injected ticks, shifted time stamps); metric-table capacity, ties between equal "
             "priorities, the trace observer and LASP are outside this model (covered by C05/C06/C07, C16, C13).")

CLAIMS = {
 "C01": ("Coq theorems over every finite history of the processor model: conservation of tagged data (held + in flight + "
         "acknowledged + given up = accepted, with multiplicities), exactly-once (NoDup) under distinct tags, nothing invented, with an accepting collector data is only ever given up for "
         "capacity / package overwrite and the final flush delivers everything a live run holds; "
         "monitors (no duplicate acknowledgement, provenance, completeness for an accepting collector) on the real processor's outputs, incl. transactions handed over right behind a harvest request.",
         "§4 C01", PROC_NOTE, "Coq proof by induction over operation histories (ghost multiset invariant) + differential correspondence + monitors"),
 "C02": ("Coq theorems: no tag acknowledged twice, acknowledged/given-up data is released, a failed payload's tags are conserved "
         "between harvest / refused / given up; a failed request is carried over iff status retryable && category retryable && "
         "attempts left (C02_save_iff; retryable statuses are exactly 408/429/500/503, Status.v, swept over every status code "
         "through the real HTTP client); a metric tag occurs in at most 6 requests, an event tag in at most 11 when deliveries do "
         "not overlap (both provisos shown necessary by refutation witnesses); monitors for re-sending of dead data and the "
         "1+5 / 1+10 attempt bounds on long failure scripts, incl. split payloads of >= 5000 events and bursts of failures "
         "answered at once while the processor is busy, against the real processor.",
         "§4 C02", PROC_NOTE, "Coq proof (invariants over histories) + differential correspondence + monitors"),
 "C03": ("Coq theorems on the processor model (RunIDValid iff the run is held; the state reported is the state held) plus "
         "lifecycle monitors (terminal verdicts, sound 'connected', retry after back-off, restart after 401/409) evaluated on the "
         "real processor over histories with every connect outcome at both stages, overlapping attempts, back-off and inactivity.",
         "§4 C03", PROC_NOTE + " The terminal-state invariant is currently checked by the monitors and the correspondence, its Coq proof is in progress.",
         "Coq proof + differential correspondence + lifecycle monitors"),
 "C04": ("Coq theorems for every history: every emitted request carries only tags submitted under its own run id while that run "
         "was held (data at rest, in flight and in every request, final flush included), and the owner key / host / headers / run id "
         "captured from the run's own application object; data under an unheld run id is ignored; owner-level isolation under the "
         "assumption that the collector does not re-issue a live run id (refutation witness otherwise); the application key is the "
         "nine identity fields. Monitors on the real processor: every request carries the "
         "owning application's license / agent identification and one of its own collector hosts / header sets, and only data "
         "submitted under that run id, and the payload is unchanged while the request is outstanding; multi-tenant histories with restarts, stale and foreign ids. AppKey collision "
         "(policy hash) is a listed known finding with a Coq witness.",
         "§4 C04", PROC_NOTE, "Coq proof + differential correspondence + isolation monitors"),
 "C06": ("Coq theorems for every offer/merge sequence: container/heap transcription is a permutation and keeps heap order; "
         "retained events/errors/traces/slow SQLs are the top-K (ties, duplicates, K=0/1, carried-over data), synthetics outrank, "
         "slow-SQL records are the field-wise merge; exhaustive small permutations and random long sequences against the real containers.",
         "§4 C06", "container/heap is transcribed by hand; priorities on the 2^-20 grid, durations integers < 2^53.",
         "Coq proof (heap invariants, top-K by induction over operations) + differential correspondence"),
 "C07": ("Coq theorems: aggregate is associative/commutative on the exact domain, result independent of order and grouping "
         "(refusals aside), scoped also unscoped, rename conserves every admitted entry and the failure counter, rule engine "
         "meets an independent relational specification over an abstract matcher; real MetricTable / MetricRules runs.",
         "§4 C07", "Go regexp is abstract (concrete matcher for a small regex class is tied by correspondence only); integer-valued fields < 2^40.",
         "Coq proof + differential correspondence"),
 "C08": ("Coq theorems: AppendString yields a valid JSON string for EVERY byte string; metric / event / log / package / connect "
         "payload assemblers yield JSON of the endpoint's shape from valid fragments, non-finite values fail; byte-for-byte "
         "comparison with jsonx and the real encoders, Coq-side JSON recogniser on the implementation's bytes.",
         "§4 C08", "strconv number printing and encoding/json are oracles (assumed to return valid JSON or an error).",
         "Coq proof (grammar + UTF-8 decoder case analysis) + differential correspondence"),
 "C09": ("Coq theorems, unbounded: round trip of any message list under every chunking, chunking irrelevance, oversize / legacy / "
         "truncated streams end only that connection without delivering or allocating, replies framed once with the request type; "
         "real ReadMessage / serve over chunked readers, pipes and a unix socket, all 2^16 values of header bytes 4-5; delivered bytes "
         "stay what they were when the next message is read.",
         "§4 C09", "reads never return data together with an error; writes succeed.",
         "Coq proof by induction over messages and chunkings + differential correspondence"),
 "C11": ("Coq theorems: the final flush is total (no blocked state), reports the exit, is final (later operations are no-ops), "
         "empties every flushed run, sends exactly the harvest's data in requests of that run (C11_flush_complete) and conserves it "
         "whatever the outcomes of the final requests; real CleanExit under a "
         "watchdog with every outcome assignment and requests still in flight.",
         "§4 C11", PROC_NOTE + " Real-time bound depends on the HTTP client time-out (modelled as the reply always arriving).",
         "Coq proof + differential correspondence + hang monitor"),
 "C12": ("Coq theorems: the trigger plan equals the specified cadence for every event_harvest_config / span_event_harvest_config, "
         "zero-limit categories are never sent, and for n in {1,6} triggers the cancel hand-shake LTS (enumerated inside Coq) is "
         "deadlock-free, terminates after Close and never blocks the processor (also proved for every broadcast-group size 0..6); real trigger goroutines with a woven ticker; restarts with a different harvest configuration on a real processor.",
         "§4 C12", "goroutine start-up abstracted; n is 1 or 6 as in the code; periods < 2^63 ns.",
         "Coq proof (functional part) + in-Coq exhaustive LTS enumeration lifted by forallb_forall + trace inclusion"),
 "C13": ("Coq theorems over all pairs of policy maps: verify iff the three documented conditions, fail-closed (no connect request "
         "unless verified), enabled = agent && collector, returned policies are the collector's; exhaustive 3-name map pairs "
         "through the real ConnectApplication; processor-level cases incl. retried attempts (fail-closed on every attempt).",
         "§4 C13", "JSON decoding of the policy maps assumed sane.", "Coq proof + exhaustive differential correspondence"),
 "C18": ("Coq theorems for any max and any number of requests: permits + running = max on every reachable state, bound, time-out "
         "semantics, quiescent => full, wiring max = 100 / 45 s translated from the source; real limitClient scenarios checked "
         "by trace inclusion.",
         "§4 C18", "Go select/defer/channel semantics modelled.", "Coq proof (LTS invariant by induction over traces) + translation + trace inclusion"),
 "C05": ("Coq theorems: the generated limits equal the documented ones; at most 2000 unforced metrics under every build and "
         "iteration order, forced offers never refused, numDropped exact; every reservoir capacity is min(daemon max, collector "
         "limit) (log: also the agent limit scaled to the report period) for ALL agent/collector values incl. absent, negative, "
         "> max, >= 2^63; advertised limits; 250-application cap over all histories; counters exact through merges and Split; capacity periods with scoped names on the real metric table; every negotiation repeated on the same application (reconnect).",
         "§4 C05", "float64 arithmetic of processLogEventLimits modelled on Z (exactness argued for products < 2^53); encoding/json decode modelled.",
         "Coq proof + grid/differential correspondence through parseConnectReply, UnmarshalAppInfo, NewHarvest and a real Processor"),
 "C10": ("Coq theorems over EVERY byte string: decoding on the connection goroutine ends in ok/error/recovered panic with the "
         "state unchanged, the lazy transaction decode on the processor goroutine is contained, other runs are untouched and the "
         "service continues (bisimulation); one listed known finding (span_queue_size) with refuted/partial theorems; thousands "
         "of structured mutants through the real listener + CommandsHandler + live Processor (audit log on), hostile numbers and text "
         "in well-formed App messages.",
         "§4 C10", "byte-level model of the flatbuffers Go runtime accessors is a hand transcription driven by the generated schema; harvest aggregation abstracted to contribution lists.",
         "Coq proof (total decoder with uint32 wrap, None exactly where Go panics) + mutation-based differential correspondence"),
 "C14": ("PARTIAL by nature: Coq theorems for the redaction functions (license obfuscation non-interference, argument echo "
         "non-interference for every spelling on both flag sets, url.Error scrubbing) and a typed table of all log call sites "
         "translated from the source; dynamic scan of every log/audit byte of the real client against a local server for every "
         "outcome class and of the real daemon for every proxy spelling; short license keys are a listed known finding.",
         "§4 C14, §8", "net/http / TLS / proxy error values are sampled, not enumerated; log-site table is type-based, not data-flow.",
         "Coq proof (non-interference of redaction functions) + source translation of log sites + dynamic secret scan"),
 "C15": ("Translation of protocol.fbs, the generated Go accessors/builders and the C header into three Coq tables on every run; "
         "Coq theorems: the tables agree field by field over the whole schema (exhaustive), shared limits equal, and for ANY "
         "schema table equality is exactly the condition for every message to decode to what was sent; messages built with the "
         "C header's numbers decoded by the daemon's accessors; every MessageBody member dispatched through the command handler.",
         "§4 C15", "translator and alias table trusted; the C side is its header and the call kinds of the transmit code.",
         "source translation + Coq proof (generic vtable round trip) + exhaustive vm_compute table comparison"),
 "C16": ("Coq theorems on an LTS of producer / worker / supportability goroutine / shutdown with the uint64 capacity counter "
         "written in: counter invariant, the producer never blocks, queued spans <= QueueSize, every span accounted exactly "
         "once, Shutdown returns and nothing crashes, for every queue size, batch-size sequence and sender behaviour; witnesses "
         "of the four defects of the old code kept as regressions; real TraceObserver with a scripted sender, watchdog on every "
         "producer call, trace inclusion in the LTS.",
         "§4 C16", "Go select choice, channel and sync.Once semantics modelled; QueueBatch/Shutdown from one goroutine at a time (as in processor.go).",
         "Coq proof (LTS invariants by induction over traces) + trace inclusion + monitors"),
 "C17": ("PARTIAL by nature: Coq theorems that the vector-clock race checker is sound for happens-before, that the one-owner / "
         "transfer-along-edges discipline is race-free, and that every trace of the worker protocol LTS (any number of "
         "connections, harvests, restarts, observers, shutdown) follows it; a field-level access table extracted from the "
         "current source (go/ssa) checked against the discipline in Coq; the real listener+processor+limiter+observer under "
         "go test -race.",
         "§4 C17, §8", "no Go semantics in Coq: adherence of the code to the protocol rests on the race detector (sampled schedules) and the type-based access table.",
         "Coq proof (happens-before soundness, ownership invariant over traces) + source translation + race-detector search"),
 "C19": ("Coq theorems: the config lexer is total on every byte string (no panic state reachable), every file syntax reads back, "
         "flag spellings, command line over file over default for every setting on the new and the legacy path, unknown keys "
         "ignored, malformed values reported, listen address resolution; flag tables and defaults translated from main.go; "
         "real configure() in child processes and ParseString on arbitrary bytes; escaped quote in double-quoted values is a "
         "listed known finding.",
         "§4 C19", "Go flag/strconv/time/utf8 behaviour transcribed by hand; rune classes from the local toolchain tables.",
         "Coq proof (lexer totality, precedence) + source translation + differential correspondence"),
 "C20": ("Coq theorems: respawn iff exit status >= 2 or a signal other than SIGTERM for every termination cause and all 2^16 wait "
         "statuses; watcher loop; pid-file lock protocol over a model of fcntl record locks; exhaustive ShouldRespawn table, real "
         "runWatcher with scripted workers, real daemons racing for one pid file.",
         "§4 C20", "Linux wait-status encoding, signal delivery and fcntl lock semantics are modelled, not verified.",
         "Coq proof (finite domain by vm_compute lifted + induction) + process-level correspondence"),
}

REASON_PENDING = "check under construction in this revision (see DESIGN.md §7); not claimed until it passes on the unchanged tree"


def main():
    props = [json.loads(l) for l in open('/verif/properties.jsonl')]
    man = {"version": 1, "setup_cmd": "./setup.sh",
           "hooks": {"guard": "verif",
                     "enable": "go test -c -vet=off -tags verif -overlay /verif/build/overlay_*.json: harness files (//go:build verif) are injected from /verif/harness/go; /repo itself carries no hook",
                     "baseline_off_cmd": "cd /repo/daemon && GOFLAGS=-mod=mod GOPROXY=off GOSUMDB=off GOTOOLCHAIN=local go test -vet=off -count=1 ./...",
                     "source_commits": [], "add_only": True},
           "engines": [{"name": "coq", "path": "/verif/coq", "serves_properties": sorted(CLAIMS),
                        "kind_free_text": "Coq 8.16.1 development: executable Gallina models, theorems, in-Coq monitors and vm_compute correspondence"}],
           "checks": [], "notes": "see DESIGN.md; KNOWN_FINDINGS.txt lists fixed defects and known findings",
           "not_applicable": []}
    for p in props:
        i = p['id']
        if i in CLAIMS:
            text, ref, note, tech = CLAIMS[i]
            man["checks"].append({"property_id": i, "quick_cmd": "./check %s quick" % i, "thorough_cmd": "./check %s thorough" % i,
                                  "evidence_file": "/verif/evidence/%s.json" % i,
                                  "replay_cmd_template": "./check %s quick --replay {path}" % i, "engine": "coq",
                                  "level_claimed": {"category": "proof", "text": text, "design_ref": "DESIGN.md " + ref},
                                  "level_note": note, "technique": tech})
        else:
            man["not_applicable"].append({"property_id": i, "reason": REASON_PENDING})
    json.dump(man, open('/verif/MANIFEST.json', 'w'), indent=1)


if __name__ == "__main__":
    main()
