#!/usr/bin/env python3
"""Re-apply every recorded seeded change (seeded/<id>/patch.diff) to a scratch worktree of /repo's HEAD and run the
property's quick check on it: every one of them must still be reported.  Writes seeded/REGRESSION.json.
usage: regress_seeds.py [-j N] [ids...]"""
import concurrent.futures, glob, hashlib, json, os, shutil, subprocess, sys, time

GOENV = dict(os.environ, GOFLAGS="-mod=mod", GOPROXY="off", GOSUMDB="off", GOTOOLCHAIN="local")


def sh(cmd, cwd=None, env=None, timeout=1500):
    p = subprocess.run(cmd, shell=True, cwd=cwd, env=env or GOENV, stdout=subprocess.PIPE, stderr=subprocess.STDOUT, timeout=timeout)
    return p.returncode, p.stdout.decode("utf-8", "replace")


def one(sid):
    d = "/verif/seeded/" + sid
    pid = sid[:3]
    wt = "/tmp/rg-" + sid
    res = {"seed": sid, "property": pid}
    sh("git -C /repo worktree remove --force %s" % wt)
    rc, out = sh("git -C /repo worktree add --detach %s HEAD -q" % wt)
    if rc != 0:
        res["status"] = "worktree failed: " + out[-200:]
        return res
    try:
        rc, out = sh("git apply --whitespace=nowarn %s/patch.diff" % d, cwd=wt)
        if rc != 0:
            rc, out = sh("git apply --3way --whitespace=nowarn %s/patch.diff" % d, cwd=wt)
        if rc != 0:
            res["status"] = "stale"          # the patch no longer applies to HEAD (a fix: commit touched the same lines)
            return res
        rc, out = sh("go build ./...", cwd=wt + "/daemon")
        if rc != 0:
            res["status"] = "does not build on HEAD"
            return res
        t = time.time()
        rc, out = sh("./check %s quick" % pid, cwd="/verif", env=dict(os.environ, VERIF_REPO=wt))
        lines = [l for l in out.split("\n") if l.startswith("VIOLATION")]
        res.update({"status": "caught" if rc != 0 and lines else "MISSED", "rc": rc, "wall_s": round(time.time() - t, 1),
                    "concrete": any("no-failing-input-found" not in l for l in lines),
                    "first": [l.split("replay=")[1].split("/")[-1] for l in lines[:2]]})
        return res
    finally:
        sh("git -C /repo worktree remove --force %s" % wt)
        h = hashlib.sha1(wt.encode()).hexdigest()[:10]
        shutil.rmtree("/verif/build/alt_" + h, ignore_errors=True)


def main():
    args = sys.argv[1:]
    j = 4
    if args[:1] == ["-j"]:
        j = int(args[1]); args = args[2:]
    ids = args or sorted(os.path.basename(p) for p in glob.glob("/verif/seeded/C*") if os.path.exists(p + "/patch.diff"))
    out = []
    with concurrent.futures.ThreadPoolExecutor(max_workers=j) as ex:
        for r in ex.map(one, ids):
            out.append(r)
            print(r["seed"], r["status"], r.get("first", ""), flush=True)
    summ = {}
    for r in out:
        summ[r["status"]] = summ.get(r["status"], 0) + 1
    json.dump({"head": sh("git -C /repo rev-parse --short HEAD")[1].strip(), "summary": summ, "results": out},
              open("/verif/seeded/REGRESSION.json", "w"), indent=1)
    print(summ)


if __name__ == "__main__":
    main()
