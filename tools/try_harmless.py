#!/usr/bin/env python3
"""Run every quick check against a behaviour-preserving refactor (worktree /tmp/seed-<H>) and record which,
if any, raise an alarm.  usage: try_harmless.py H01 [H02 ...]"""
import json, os, subprocess, sys, time, shutil

GOENV = dict(os.environ, GOFLAGS="-mod=mod", GOPROXY="off", GOSUMDB="off", GOTOOLCHAIN="local")


def sh(cmd, cwd=None, env=None, timeout=3000):
    p = subprocess.run(cmd, shell=True, cwd=cwd, env=env or GOENV, stdout=subprocess.PIPE, stderr=subprocess.STDOUT, timeout=timeout)
    return p.returncode, p.stdout.decode("utf-8", "replace")


for h in sys.argv[1:]:
    wt = "/tmp/seed-" + h
    d = "/verif/seeded/harmless/" + h
    os.makedirs(d, exist_ok=True)
    rc, diff = sh("git diff", cwd=wt)
    open(d + "/patch.diff", "w").write(diff)
    meta = {}
    try:
        meta = json.load(open("/tmp/seedout-%s/meta.json" % h))
    except Exception:
        pass
    res = {"refactor": h, "summary": meta.get("summary"), "files_changed": sh("git diff --name-only", cwd=wt)[1].split(), "checks": {}}
    rc, out = sh("go build ./... && go test -vet=off -count=1 ./... 2>&1 | tail -15", cwd=wt + "/daemon")
    res["builds_and_suite_passes"] = rc == 0 and "FAIL" not in out
    for i in range(1, 21):
        c = "C%02d" % i
        t = time.time()
        rc, out = sh("./check %s quick" % c, cwd="/verif", env=dict(os.environ, VERIF_REPO=wt))
        lines = [l[:300] for l in out.split("\n") if l.startswith("VIOLATION")]
        res["checks"][c] = {"rc": rc, "violations": lines[:3], "wall_s": round(time.time() - t, 1)}
        for l in lines[:1]:
            rp = l.split("replay=")[1].split()[0]
            if os.path.exists(rp) and os.path.getsize(rp) < 2_000_000:
                shutil.copy(rp, d + "/replay_" + c + "_" + os.path.basename(rp))
    res["alarms"] = sorted(c for c, v in res["checks"].items() if v["rc"] != 0)
    json.dump(res, open(d + "/result.json", "w"), indent=1)
    print(h, "suite_ok" if res["builds_and_suite_passes"] else "SUITE FAILS", "alarms:", res["alarms"])
    # the private build directory of this worktree is no longer needed
