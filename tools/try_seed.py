#!/usr/bin/env python3
"""Confirm a seeded defect delivered by a fresh sub-agent and run our check against it.
usage: try_seed.py <ID> [check ids...]   (worktree /tmp/seed-<ID>, outputs /tmp/seedout-<ID>)
Records everything under /verif/seeded/<ID>/."""
import json, os, shutil, subprocess, sys, time

GOENV = dict(os.environ, GOFLAGS="-mod=mod", GOPROXY="off", GOSUMDB="off", GOTOOLCHAIN="local")


def sh(cmd, cwd=None, env=None, timeout=1800):
    p = subprocess.run(cmd, shell=True, cwd=cwd, env=env or GOENV, stdout=subprocess.PIPE, stderr=subprocess.STDOUT, timeout=timeout)
    return p.returncode, p.stdout.decode("utf-8", "replace")


def main():
    pid = sys.argv[1]
    checks = sys.argv[2:] or [pid]
    tag = os.environ.get("SEED_TAG", "")  # later rounds: /tmp/seed-<ID><tag>, recorded as seeded/<ID><tag>
    wt, outd = "/tmp/seed-" + pid + tag, "/tmp/seedout-" + pid + tag
    meta = json.load(open(outd + "/meta.json"))
    demo_rel = meta["demo_path_in_worktree"]
    demo_abs = os.path.join(wt, demo_rel)
    res = {"property": pid, "head": sh("git rev-parse --short HEAD", cwd=wt)[1].strip()}
    # the patch as it is in the worktree
    rc, diff = sh("git diff -- . ':(exclude)%s'" % demo_rel, cwd=wt)
    files = sh("git diff --name-only", cwd=wt)[1].split()
    res["files_changed"] = files
    assert diff.strip(), "no patch applied in the worktree"
    d = "/verif/seeded/" + pid + tag
    os.makedirs(d, exist_ok=True)
    open(d + "/patch.diff", "w").write(diff)
    # 1. builds, suite passes with patch and without the demo file
    tmp_demo = "/tmp/seed-demo-%s%s.go.keep" % (pid, tag)
    has_demo = os.path.exists(demo_abs)
    if has_demo:
        shutil.copy(demo_abs, d + "/" + os.path.basename(demo_rel))
        shutil.move(demo_abs, tmp_demo)
    rc, out = sh("go build ./...", cwd=wt + "/daemon")
    res["builds"] = rc == 0
    rc, out = sh("go test -vet=off -count=1 ./... 2>&1 | tail -30", cwd=wt + "/daemon")
    res["suite_passes_with_patch"] = ("FAIL" not in out) and rc == 0
    res["suite_tail"] = out[-600:]
    if has_demo:
        shutil.move(tmp_demo, demo_abs)
    # 2. demo fails with patch, passes without
    import re as _re
    run_cmd = _re.split(r"\s{2,}\(", meta.get("demo_run_cmd", "").replace("<worktree>", wt))[0]   # drop a trailing remark
    if run_cmd:
        rc1, o1 = sh(run_cmd, cwd=(None if run_cmd.startswith("cd /") else (wt if run_cmd.startswith("cd ") else wt + "/daemon")))
        res["demo_fails_with_patch"] = rc1 != 0
        # (no git stash: the stash stack is shared by all worktrees of /repo)
        sh("git checkout -- %s" % " ".join(files), cwd=wt)
        rc2, o2 = sh(run_cmd, cwd=(None if run_cmd.startswith("cd /") else (wt if run_cmd.startswith("cd ") else wt + "/daemon")))
        res["demo_passes_without_patch"] = rc2 == 0
        rca, oa = sh("git apply %s/patch.diff" % d, cwd=wt)
        assert rca == 0, "could not re-apply the patch: " + oa
        res["demo_out_with_patch"] = o1[-800:]
        if rc2 != 0:
            res["demo_out_without_patch"] = o2[-800:]
    # 3. our checks against the patched tree (the demonstration file is not part of the seeded change)
    if has_demo and os.path.exists(demo_abs):
        shutil.move(demo_abs, tmp_demo)
    res["checks"] = {}
    for c in checks:
        t = time.time()
        rc, out = sh("./check %s quick" % c, cwd="/verif", env=dict(os.environ, VERIF_REPO=wt), timeout=3000)
        lines = [l for l in out.split("\n") if l.startswith("VIOLATION") or l.startswith("KNOWN-FINDING")]
        res["checks"][c] = {"rc": rc, "lines": lines[:6], "wall_s": round(time.time() - t, 1)}
        # keep the first replay file
        for l in lines:
            if "replay=" in l:
                rp = l.split("replay=")[1].split()[0]
                if os.path.exists(rp):
                    shutil.copy(rp, d + "/replay_" + c + "_" + os.path.basename(rp))
                break
    if has_demo and os.path.exists(tmp_demo):
        shutil.move(tmp_demo, demo_abs)
    meta_out = {"property": pid, "agent_meta": meta, "confirmed": {k: res.get(k) for k in
                ("builds", "suite_passes_with_patch", "demo_fails_with_patch", "demo_passes_without_patch")},
                "needs_to_manifest": meta.get("needs_to_manifest"), "summary": meta.get("summary"),
                "what_i_ran": ["go build ./...", "go test -vet=off -count=1 ./... (patch applied, demo file moved away)",
                               run_cmd + " (with and without the patch)"] + ["VERIF_REPO=%s ./check %s quick" % (wt, c) for c in checks],
                "check_results": res["checks"], "repo_head": res["head"]}
    json.dump(meta_out, open(d + "/meta.json", "w"), indent=1)
    print(json.dumps({k: v for k, v in res.items() if k not in ("suite_tail", "demo_out_with_patch")}, indent=1)[:3000])


if __name__ == "__main__":
    main()
